import sys
pid=sys.argv[1]
prop=open(f'/tmp/seed-{pid}.prop.txt').read()
print(f"""You are a software engineer helping to evaluate a verification effort by producing realistic, subtle regressions of a Go library. You work ONLY in the git worktree /tmp/seed-{pid} (a scratch checkout of the library github.com/bluenviron/gohlslib/v2, an HLS client/muxer library). Do not look at or touch anything outside that directory (in particular never read /verif or /work or /repo). Every shell call needs: export GOFLAGS=-mod=mod GOPROXY=off GOSUMDB=off GOTOOLCHAIN=local (there is no network; dependencies are in the module cache).

Here is a semantic property the library is supposed to satisfy:

{prop}

Your job: produce THREE different, independent source changes ("seeded defects") to the library, each of which
 (1) still compiles (`go build ./ ./pkg/...` and `go vet . ./pkg/...` in the worktree),
 (2) still passes the library's existing test-suite unchanged: `go test -vet=off -count=1 . ./pkg/...` (run it; it takes ~10 s),
 (3) BREAKS the property above, and
 (4) needs something specific to manifest — a particular interleaving, a multi-step sequence of operations, an unusual but legal input/configuration, a boundary value, or two cooperating sites that each look fine alone — NOT something that ordinary use (the typical happy path the tests exercise) would expose at once. Think of the kind of bug that slips through code review: an off-by-one on a rarely-taken branch, a condition that is wrong only when two values coincide, a state update moved across a lock release, a field forgotten in one of several similar code paths, a cleanup skipped on one path. Do not add files guarded by build tags, do not touch `verif_*.go` files or lines calling `verifYield` (they are test instrumentation), do not modify tests, do not make the change depend on environment variables, time of day or randomness.

For each of the three changes deliver, under /tmp/seed-{pid}/out/<k>/ (k = 1,2,3; create the directories; `out/` is not part of the library):
 - `patch.diff` : `git diff` of the change against the worktree's HEAD (only library source files), and NOTHING else changed in the worktree while you create it (reset between changes with `git checkout -- . && git clean -fd -e out`),
 - `demo_test.go` (package gohlslib or the relevant sub-package; say in meta.json where it must be placed) or a small `demo/main.go` program: a demonstration that FAILS with the change applied and PASSES without it — verify both directions yourself and paste the two outputs into meta.json,
 - `meta.json` : {{"property": "{pid}", "summary": "<one paragraph: what was changed>", "needs": "<what it needs in order to manifest>", "demo_location": "<path where demo file goes>", "demo_cmd": "<command to run it>", "output_with_change": "...", "output_without_change": "...", "existing_tests_pass_with_change": true}}.
Make the three changes genuinely different from each other (different functions / different mechanisms). Prefer changes in the files the property is anchored in. When done, leave the worktree clean except for `out/` (git checkout -- . ; remove stray demo files from the source tree) and report a 10-line summary of the three changes.""")
