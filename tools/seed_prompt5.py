"""tools/seed_prompt5.py <group> <prop ids comma> <style> -> prompt (round 5: style-targeted, any file)"""
import sys, json, glob
grp, pids, style = sys.argv[1], sys.argv[2].split(','), sys.argv[3]
STYLES = {
 'refactor': "A REFACTORING THAT IS ALMOST BEHAVIOUR-PRESERVING: the diff must read like a clean-up a maintainer would approve at a glance - extracting a helper, merging two near-duplicate blocks, replacing a loop by a library call or an index loop by a range loop, hoisting an expression into a local, inverting a condition to reduce nesting, replacing a hand-written comparison by a generic one, caching a value that is computed twice, reordering independent-looking statements, narrowing or widening a variable's type - and be equivalent on every path except one: the merged blocks differed in one detail, the hoisted expression is stale after a mutation in between, the cached value is not invalidated on one path, the generic comparison treats nil and empty differently, the reordered statements were not independent under one condition, the narrower type truncates a rare large value.",
 'codec': "CODEC- OR CONTAINER-SPECIFIC PATH: the change must be invisible for H264 + AAC in the common variants and show only on one of the less travelled codec or container paths - VP9, AV1, H265, Opus, multi-packet / multi-AU audio writes, MPEG-TS specifics (PAT/PMT, 33-bit wrap, ADTS), fMP4 specifics (trun flags, presentation offsets, base times, sequence numbers), codec parameter extraction or comparison for one codec, codec strings, conversion of codec descriptions between the library's types and the container's.",
 'conc': "CONCURRENCY: the change must be invisible in any single-threaded use and show only under a specific interleaving of goroutines - a window of a few statements between a lock release and a notification, a check made before instead of after acquiring a lock, a flag read outside the critical section, a wake-up that can be missed, a goroutine that is not waited for, a channel operation that can block forever when the other side has already left, state published before it is complete, an unlock on one path only. The existing tests must keep passing (also with -race where they can run with it).",
 'numeric': "NUMERIC BOUNDARY: the change must be invisible for ordinary values and show only at an exact boundary or for an extreme value - a comparison that differs only when two quantities are equal, rounding that differs only at an exact tie or for negative values, integer truncation vs floor for negative numbers, an overflow or wrap-around that needs very large values, a unit conversion that loses precision only for certain clock rates, an off-by-one that matters only when a count is exactly a limit, a duration that is exactly a multiple of something.",
 'config': "UNUSUAL BUT LEGAL CONFIGURATION OR INPUT: the change must be invisible for the common configurations and inputs (H264 + stereo AAC at 44.1/48 kHz, default muxer settings, 1-2 s segments, plain relative URIs, ASCII names) and show only for a legal but uncommon one - e.g. other sample rates or channel counts, Opus, VP9/AV1/H265, very small or very large SegmentCount / SegmentMinDuration / PartMinDuration / SegmentMaxSize, several audio tracks, audio-only or video-only, unusual clock rates, very large or negative timestamps, long or non-ASCII names and languages, unusual playlist attributes, odd URI forms, big payloads.",
 'errorpath': "BEHAVIOUR AFTER AN ERROR OR ON A RARELY TAKEN BRANCH: the change must be invisible as long as every call succeeds and show only after (or while) something went wrong or something rare happened - a Write that returned an error, a storage failure, an HTTP error or a cancelled request, a request for something that has just expired, a rejected unit, a parameter change, a rotation forced by a limit, Close in the middle of something, a decode error that is skipped.",
 'cross': "INTERACTION OF TWO FEATURES: the change must be invisible when each feature is used alone and show only when two are combined - e.g. Directory storage x Low-Latency parts, delta updates x gaps, parameter change x part rotation, audio renditions x timestamp wrap, byte ranges x rendition playlists, blocking reload x Close, several renditions x end of stream, frame reordering x segment cuts, preload hints x window sliding.",
}
props = []
for l in open('/verif/properties.jsonl'):
    p = json.loads(l)
    if p['id'] in pids:
        props.append(f"{p['id']} — {p['title']}\nStatement: {p['statement']}\nQuantifier: {p['quantifier']['text']}\nAnchored in: {', '.join(p['anchors']['files'])}\n")
tried = []
for f in sorted(glob.glob('/verif/seeded/*/meta.json')):
    m = json.load(open(f))
    if (m.get('property') or '')[:3] in pids:
        tried.append('- ' + (m.get('summary') or '')[:160].replace('\n', ' '))
out = sys.argv[4] if len(sys.argv) > 4 else 'out5'
print(f"""You are a software engineer helping to evaluate a verification effort by producing realistic, subtle regressions of a Go library. You work ONLY in the git worktree /tmp/seed-{grp} (a scratch checkout of the library github.com/bluenviron/gohlslib/v2, an HLS client/muxer library). Do not look at or touch anything outside that directory (in particular never read /verif or /work or /repo). Every shell call needs: export GOFLAGS=-mod=mod GOPROXY=off GOSUMDB=off GOTOOLCHAIN=local (there is no network; dependencies are in the module cache). IMPORTANT: never use `git stash` (the stash is shared between all checkouts of this repository and other engineers are working in parallel): to test without your change use `git apply -R <your patch file>` and `git apply` to re-apply it.

Here are semantic properties the library is supposed to satisfy:

{chr(10).join(props)}

Your job: produce THREE different, independent source changes ("seeded defects"), anywhere in the library's non-test source. Each change
 (1) still compiles (`go build ./ ./pkg/...` and `go vet . ./pkg/...` in the worktree),
 (2) still passes the library's existing test-suite unchanged: `go test -vet=off -count=1 . ./pkg/...` (run it; it takes ~10 s; a failure mentioning "address already in use" or an unexplained instant failure of the root package is a port clash with another checkout - just re-run),
 (3) BREAKS one of the properties above (say which one: the one it breaks most directly), and
 (4) is of this particular kind — {STYLES[style]}
Think of the kind of bug that slips through code review. Do not add files guarded by build tags, do not touch `verif_*.go` files or lines calling `verifYield` (they are test instrumentation), do not modify tests, do not make the change depend on environment variables, time of day or randomness.

Changes already produced by other engineers for these properties (do NOT repeat their sites or mechanisms; {len(tried)} so far):
{chr(10).join(tried)}

For each of the three changes deliver, under /tmp/seed-{grp}/{out}/<k>/ (k = 1,2,3; create the directories; `{out}/` is not part of the library):
 - `patch.diff` : `git diff` of the change against the worktree's HEAD (only library source files), and NOTHING else changed in the worktree while you create it (reset between changes with `git checkout -- . && git clean -fd -e {out}`),
 - `demo_test.go` (package gohlslib or the relevant sub-package; say in meta.json where it must be placed): a demonstration that FAILS with the change applied and PASSES without it — verify both directions yourself and paste the two outputs into meta.json,
 - `meta.json` : {{"property": "<the id of the property it breaks, e.g. C10>", "summary": "<one paragraph: what was changed>", "needs": "<what it needs in order to manifest>", "demo_location": "<path where the demo file goes, relative to the worktree root, e.g. demo_s_test.go or pkg/playlist/demo_s_test.go>", "demo_cmd": "<one shell command, run from the worktree root, that first copies {out}/<k>/demo_test.go to demo_location, runs the test, and removes the copy again>", "output_with_change": "...", "output_without_change": "...", "existing_tests_pass_with_change": true}}.
Make the three changes genuinely different from each other (different files / functions / mechanisms, different properties if possible). When done, leave the worktree clean except for `{out}/` and report a 10-line summary of the three changes.""")
