#!/usr/bin/env python3
"""tools/try_seed.py <PROP> <src_dir> <name> [extra check ids…]
Confirms a seeded change (src_dir holds patch.diff, meta.json, demo file) in a scratch worktree of /repo:
existing tests still pass, demo fails with / passes without the change; then runs ./check <PROP> quick (and the
extra ids) against the patched worktree and records everything under /verif/seeded/<name>/."""
import sys, os, json, subprocess, shutil, re, time
prop, src, name = sys.argv[1], sys.argv[2], sys.argv[3]
extra = sys.argv[4:]
ROOT = "/verif"
env = dict(os.environ, GOFLAGS="-mod=mod", GOPROXY="off", GOSUMDB="off", GOTOOLCHAIN="local")
def sh(cmd, cwd=None, e=None, timeout=1800):
    p = subprocess.run(cmd, cwd=cwd, env=e or env, shell=isinstance(cmd, str), stdout=subprocess.PIPE, stderr=subprocess.STDOUT, timeout=timeout)
    return p.returncode, p.stdout.decode("utf-8", "replace")
wt = f"/tmp/try-{name}"
sh(f"git -C /repo worktree remove --force {wt}"); shutil.rmtree(wt, ignore_errors=True)
rc, out = sh(f"git -C /repo worktree add --detach {wt} HEAD")
assert rc == 0, out
meta = json.load(open(os.path.join(src, "meta.json")))
res = {"property": prop, "summary": meta.get("summary"), "needs": meta.get("needs"), "ran": []}
try:
    demo_src = [f for f in os.listdir(src) if f.startswith("demo")]
    _m = re.search(r"(pkg/[\w/]+?)(?:/[\w]+\.go|\s|\)|$)", meta.get("demo_location", "") or "")
    demo_dir = _m.group(1) if _m else ""
    demo_loc = demo_dir
    demo_cmd = re.sub(r"\s{2,}\((optional|or|note)[^)]*\)\s*$", "", meta.get("demo_cmd", ""))
    k = os.path.basename(os.path.normpath(src))
    def place_demo():
        # the meta's command usually copies out/<k>/demo… itself; provide out/<k>/ and, as a fallback, place the file
        shutil.copytree(src, os.path.join(wt, "out", k), dirs_exist_ok=True)
        shutil.copytree(src, os.path.join(wt, "out2", k), dirs_exist_ok=True)
        shutil.copytree(src, os.path.join(wt, "out3", k), dirs_exist_ok=True)
        shutil.copytree(src, os.path.join(wt, "out4", k), dirs_exist_ok=True)
        shutil.copytree(src, os.path.join(wt, "out5", k), dirs_exist_ok=True)
        shutil.copytree(src, os.path.join(wt, "out6", k), dirs_exist_ok=True)
        shutil.copytree(src, os.path.join(wt, "out7", k), dirs_exist_ok=True)
        shutil.copytree(src, os.path.join(wt, "out8", k), dirs_exist_ok=True)
        shutil.copytree(src, os.path.join(wt, "out9", k), dirs_exist_ok=True)
        shutil.copytree(src, os.path.join(wt, "out10", k), dirs_exist_ok=True)
        shutil.copytree(src, os.path.join(wt, "out11", k), dirs_exist_ok=True)
        if "cp " not in demo_cmd:
            for f in demo_src:
                p = os.path.join(src, f)
                if os.path.isdir(p):
                    shutil.copytree(p, os.path.join(wt, f), dirs_exist_ok=True)
                    continue
                dst = os.path.join(wt, demo_dir, f)
                os.makedirs(os.path.dirname(dst), exist_ok=True)
                shutil.copyfile(p, dst)
    def run_demo():
        cmd = re.sub(r"/tmp/seed-\w+", wt, demo_cmd)
        if cmd.strip().startswith("(") is False and "cd " in cmd.split("&&")[0]:
            pass
        # private network namespace: demos and the suite bind fixed ports that other checkouts may hold
        return sh(["unshare", "-n", "sh", "-c", "ip link set lo up; " + cmd], cwd=wt, timeout=900)
    def run_tests():
        # the client tests bind a fixed port (5780): another checkout's (possibly hung) test run makes the root package
        # fail at once; a genuine failure fails every time
        for attempt in range(8):
            rc, out = sh("go build ./ ./pkg/... && go vet . ./pkg/... && unshare -n sh -c 'ip link set lo up; go test -vet=off -count=1 . ./pkg/...'", cwd=wt)
            if rc == 0: return rc, out
            time.sleep(45)
        return rc, out
    # 1. demo passes without the change
    place_demo()
    rc0, out0 = run_demo()
    res["demo_without_change"] = {"rc": rc0, "tail": out0[-600:]}
    sh("git checkout -- . && git clean -fdq", cwd=wt)
    # 2. apply, existing tests pass
    rc, out = sh(f"git apply {os.path.join(src,'patch.diff')}", cwd=wt)
    assert rc == 0, "patch does not apply: " + out
    rct, outt = run_tests()
    res["existing_tests_with_change"] = {"rc": rct, "tail": outt[-400:]}
    # 3. demo fails with the change
    place_demo()
    rc1, out1 = run_demo()
    res["demo_with_change"] = {"rc": rc1, "tail": out1[-800:]}
    for f in demo_src:   # remove the demo again, keep the patch
        pass
    sh("git clean -fdq", cwd=wt)   # removes the demo and out/, keeps the patch
    def failed(rc, out): return rc != 0 or "--- FAIL" in out or "\nFAIL" in out or "panic:" in out
    res["confirmed"] = (not failed(rc0, out0)) and rct == 0 and failed(rc1, out1)
    # 4. our checks
    res["checks"] = {}
    for cid in [prop] + extra:
        e = dict(env, VERIF_REPO=wt)
        t0 = time.time()
        rcc, outc = sh(["./check", cid, "quick"], cwd=ROOT, e=e, timeout=3600)
        lines = [l for l in outc.split("\n") if l.startswith("VIOLATION") or l.startswith("OK ") or l.startswith("  ")]
        replay = None
        m = re.search(r"replay=(\S+)", outc)
        body = None
        if m and os.path.exists(m.group(1)):
            body = json.load(open(m.group(1)))
            for k in ("impl", "model", "detail"):
                if isinstance(body.get(k), list) and len(body[k]) > 30: body[k] = body[k][:30]
                if isinstance(body.get(k), str) and len(body[k]) > 3000: body[k] = body[k][-3000:]
        res["checks"][cid] = {"rc": rcc, "detected": rcc != 0, "wall_s": round(time.time()-t0,1), "output": lines[:6], "replay": body}
    res["ran"] = ["scratch worktree of /repo HEAD", "go build+vet+test with the change", "demo with/without the change", f"VERIF_REPO=<worktree> ./check {prop} quick" + "".join(f", {c}" for c in extra)]
finally:
    sh("git checkout -- . && git clean -fdq", cwd=wt)
    sh(f"git -C /repo worktree remove --force {wt}"); shutil.rmtree(wt, ignore_errors=True)
dst = os.path.join(ROOT, "seeded", name)
os.makedirs(dst, exist_ok=True)
shutil.copyfile(os.path.join(src, "patch.diff"), os.path.join(dst, "patch.diff"))
for f in os.listdir(src):
    if f.startswith("demo"):
        p = os.path.join(src, f)
        (shutil.copytree(p, os.path.join(dst, f), dirs_exist_ok=True) if os.path.isdir(p) else shutil.copyfile(p, os.path.join(dst, f)))
meta_out = dict(meta); meta_out["verification"] = res
json.dump(meta_out, open(os.path.join(dst, "meta.json"), "w"), indent=1)
print(name, "confirmed" if res.get("confirmed") else "NOT-CONFIRMED", {k: v["detected"] for k, v in res.get("checks", {}).items()})
