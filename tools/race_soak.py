#!/usr/bin/env python3
"""
C08 race soak (a SEARCH and a sanity check of the phase map — never the proof).

  1. builds go/cmd/corr with `-race -tags verif[,racehooks]` against $VERIF_REPO (CGO is needed by -race);
  2. runs the `race` slice (go/cmd/corr/slice_race.go) in parallel shards: one writer goroutine (the muxer
     slice's generated op sequences: all variants, RAM and Directory, codec parameter changes, rotations) plus
     2..6 reader goroutines hammering every kind of URL, Close() while the readers are active;
  3. collects  (a) the slice's direct-oracle failures (panic in a handler, playlist that does not satisfy the
     single-playlist clauses, per-requester monotonicity, torn / changing bodies),
               (b) the Go race detector's reports, canonicalised to the pair of (function, source line),
               (c) the diff of the writer-side observations against the sequential Lean model (drv_muxer);
  4. prints  EXTRA-STAT {json}  /  EXTRA-FAIL <text>  for ./check. Every race report is a failure; the tags
     F5- / F14a- / F14b- only name the (repaired) races should one come back. (An optional "pending_known" list in
     checks/C08.json would turn matching lines into EXTRA-KNOWN; it is empty / absent.)
"""
import sys, os, re, json, subprocess, shutil, tempfile, hashlib, collections, concurrent.futures, time

ROOT = os.path.dirname(os.path.dirname(os.path.abspath(__file__)))
GO = os.path.join(ROOT, "go")
REPO = os.path.abspath(os.environ.get("VERIF_REPO", "/repo"))
tier = sys.argv[1] if len(sys.argv) > 1 else "quick"
seed = int(sys.argv[2]) if len(sys.argv) > 2 else 1
cfg = json.load(open(os.path.join(ROOT, "checks", "C08.json")))
soak = cfg.get("soak", {})
SHARDS = soak.get(tier + "_shards", 12 if tier == "quick" else 16)
PER = soak.get(tier + "_cases_per_shard", 10 if tier == "quick" else 120)
PENDING = cfg.get("pending_known", [])

env = dict(os.environ, GOFLAGS="-mod=mod", GOPROXY="off", GOSUMDB="off", GOTOOLCHAIN="local", CGO_ENABLED="1")


def die(msg):
    print("race_soak: " + msg)
    sys.exit(2)


# ---- build ------------------------------------------------------------------------------------
mod = open(os.path.join(GO, "go.mod")).read()
mod = re.sub(r"(replace github.com/bluenviron/gohlslib/v2 => )\S+", lambda m: m.group(1) + REPO, mod)
modfile = os.path.join(GO, ".race.%d.mod" % os.getpid())
open(modfile, "w").write(mod)
shutil.copyfile(os.path.join(REPO, "go.sum"), modfile[:-4] + ".sum")
tags = "verif"
hooks = os.path.exists(os.path.join(REPO, "pkg", "storage", "verif_on.go"))
if hooks:
    tags += ",racehooks"
os.makedirs(os.path.join(ROOT, "bin"), exist_ok=True)
exe = os.path.join(ROOT, "bin", "race_soak.%d" % os.getpid())
work = tempfile.mkdtemp(prefix="race-soak-")
try:
    t0 = time.time()
    p = subprocess.run(["go", "build", "-race", "-modfile=" + modfile, "-tags", tags, "-o", exe, "./cmd/corr"],
                       cwd=GO, env=env, stdout=subprocess.PIPE, stderr=subprocess.STDOUT)
    if p.returncode != 0:
        die("go build -race failed:\n" + p.stdout.decode("utf-8", "replace")[-3000:])
    build_s = time.time() - t0

    drv = os.path.join(ROOT, "lean", ".lake", "build", "bin", "drv_muxer")

    def shard(i):
        d = os.path.join(work, "s%d" % i)
        os.makedirs(d)
        e = dict(env, GORACE="halt_on_error=0 history_size=3 log_path=" + os.path.join(d, "race"),
                 RACE_STATS=os.path.join(d, "rstats.jsonl"), TMPDIR=d)
        # shard 0 also runs the slice's corpus (the deterministic F14a scenario)
        q = subprocess.run([exe, "gen", "-slice", "race", "-n", str(PER), "-seed", str(seed * 1000 + i), "-tier", tier] +
                           ([] if i == 0 else ["-nocorpus"]) + [
                            "-ops", "ops.txt", "-impl", "impl.txt", "-oracle", "oracle.txt", "-stats", "stats.json"],
                           cwd=d, env=e, stdout=subprocess.PIPE, stderr=subprocess.STDOUT)
        model_ok = None
        if q.returncode in (0, 66) and os.path.exists(drv) and os.path.exists(os.path.join(d, "ops.txt")):
            with open(os.path.join(d, "ops.txt"), "rb") as fin, open(os.path.join(d, "model.txt"), "wb") as fout:
                m = subprocess.run([drv], stdin=fin, stdout=fout, stderr=subprocess.PIPE)
            model_ok = m.returncode == 0
        return d, q.returncode, q.stdout.decode("utf-8", "replace"), model_ok

    t0 = time.time()
    with concurrent.futures.ThreadPoolExecutor(max_workers=SHARDS) as ex:
        results = list(ex.map(shard, range(SHARDS)))
    run_s = time.time() - t0

    # ---- collect -----------------------------------------------------------------------------
    fails = collections.OrderedDict()      # text -> count
    tagsc = collections.Counter()
    cases = distinct = 0
    sample = None

    def split_cases(path):
        out, cur = [], None
        if not os.path.exists(path):
            return out
        for l in open(path, errors="replace"):
            l = l.rstrip("\n")
            if l.startswith("case "):
                cur = [l, []]; out.append(cur)
            elif cur is not None:
                cur[1].append(l)
        return out

    def keep_case(d, hdr):
        """store the ops of a failing case under replays/ for inspection / `corr replay -slice race`"""
        for c in split_cases(os.path.join(d, "ops.txt")):
            if c[0] == hdr:
                os.makedirs(os.path.join(ROOT, "replays"), exist_ok=True)
                h = hashlib.sha1("\n".join(c[1]).encode()).hexdigest()[:10]
                pth = os.path.join(ROOT, "replays", "C08-race-%s.ops.txt" % h)
                open(pth, "w").write(c[0] + "\n" + "\n".join(c[1]) + "\n")
                return pth
        return "?"

    src_cache = {}

    def src_line(path, line):
        if path not in src_cache:
            try:
                src_cache[path] = open(path, errors="replace").read().split("\n")
            except OSError:
                src_cache[path] = []
        ls = src_cache[path]
        return ls[line - 1].strip() if 0 < line <= len(ls) else "?"

    def canon_access(kind, frames):
        """frames: [(func, file, line)], innermost first -> 'R|W pkg.func [source line]' of the first frame inside the repository"""
        for fn, f, ln in frames:
            if f.startswith(REPO + os.sep) or "/gohlslib" in f:
                short = re.sub(r"^github\.com/bluenviron/gohlslib/v2[./]?", "", fn)
                short = re.sub(r"^pkg/", "", short)
                return "%s %s [%s]" % (kind, short, src_line(f, ln)), True
        for fn, f, ln in frames:
            if fn.startswith("main."):
                return "%s %s [%s:%d]" % (kind, fn, os.path.basename(f), ln), False
        return "%s ?" % kind, False

    def parse_reports(text):
        for block in text.split("=================="):
            if "WARNING: DATA RACE" not in block:
                continue
            accs = []
            cur = None
            lines = block.split("\n")
            k = 0
            while k < len(lines):
                l = lines[k]
                m = re.match(r"^(Previous )?([Rr]ead|[Ww]rite|[Aa]tomic \w+) at 0x[0-9a-f]+ by ", l)
                if m:
                    cur = ["W" if "rite" in m.group(2) else "R", []]
                    accs.append(cur)
                elif l.startswith("Goroutine ") or l.startswith("Found "):
                    cur = None
                elif cur is not None and l.startswith("  ") and not l.startswith("    ") and k + 1 < len(lines):
                    fn = re.sub(r"\(\)$", "", l.strip())
                    m2 = re.match(r"^\s+(\S+):(\d+)", lines[k + 1])
                    if m2:
                        cur[1].append((fn, m2.group(1), int(m2.group(2))))
                        k += 1
                k += 1
            if len(accs) >= 2:
                a, ina = canon_access(accs[0][0], accs[0][1])
                b, inb = canon_access(accs[1][0], accs[1][1])
                pair = " <-> ".join(sorted([a, b]))
                yield pair, (ina or inb)

    def classify(pair):
        if re.search(r"\(\*muxerStream\)\.close \[s\.closed = true\]", pair):
            return "F5-stream-closed-race: "
        if re.search(r"W \(\*muxerSegmenter\)\.write(AV1|VP9|H264|H265) \[codec\.\w+ = ", pair):
            return "F14a-codec-params-race: "
        if re.search(r"storage\.\(\*fileDisk\)\.(Finalize|NewPart) \[(p\.buffer = nil|lastPart\.size = )", pair) and "(*partDisk).Reader" in pair:
            return "F14b-partdisk-buffer-race: "
        return ""

    reports = collections.Counter()
    first_case_of = {}
    for d, rc, out, model_ok in results:
        if rc not in (0, 66) or not os.path.exists(os.path.join(d, "stats.json")):
            # a Go runtime fatal error (e.g. "concurrent map read and map write") cannot be recovered by the harness
            why = next((l.strip() for l in out.split("\n") if l.startswith("fatal error:") or l.startswith("panic:")), "exit %d" % rc)
            frame = next((l.strip() for l in out.split("\n") if "gohlslib/v2" in l and "(" in l and "slice_race" not in l), "")
            fails["C08 the process died during the concurrent run: %s %s   [shard seed %d; last output: %s]" % (
                why, frame[:160], seed * 1000 + results.index((d, rc, out, model_ok)), out[-300:].replace("\n", " | "))] = 1
            for f in os.listdir(d):
                if f.startswith("race."):
                    for pair, inrepo in parse_reports(open(os.path.join(d, f), errors="replace").read()):
                        reports[(pair, inrepo)] += 1
            continue
        st = json.load(open(os.path.join(d, "stats.json")))
        cases += st["cases"]; distinct += st["distinct_cases"]
        for k, v in st["tags"].items():
            tagsc["race:" + k] += v
        if sample is None and st["samples"]:
            sample = {"slice": "race", "ops": st["samples"][0][:25]}
        if os.path.exists(os.path.join(d, "rstats.jsonl")):
            for l in open(os.path.join(d, "rstats.jsonl")):
                try:
                    for k, v in json.loads(l).items():
                        tagsc["race:" + k] += v
                except ValueError:
                    pass
        # (a) direct oracle
        for l in open(os.path.join(d, "oracle.txt"), errors="replace"):
            l = l.rstrip("\n")
            if " :: " not in l:
                continue
            hdr, txt = l.split(" :: ", 1)
            if "C08" not in txt:
                continue      # clauses of other properties (checked by the muxer stream of their own checks)
            cls = re.sub(r"[0-9a-f]{12}_", "P_", txt)
            cls = re.sub(r"\d+", "N", cls)[:160]
            if cls not in first_case_of:
                first_case_of[cls] = True
                fails["%s   [case %s of shard seed %s; ops kept in %s]" % (txt[:400], hdr, st["seed"], keep_case(d, hdr))] = 1
        # (b) race detector
        for f in os.listdir(d):
            if f.startswith("race."):
                for pair, inrepo in parse_reports(open(os.path.join(d, f), errors="replace").read()):
                    reports[(pair, inrepo)] += 1
        # (c) writer-side observations against the sequential model
        if model_ok:
            ci, cm = split_cases(os.path.join(d, "impl.txt")), split_cases(os.path.join(d, "model.txt"))
            for k in range(max(len(ci), len(cm))):
                a = ci[k] if k < len(ci) else ["<missing>", []]
                b = cm[k] if k < len(cm) else ["<missing>", []]
                if a != b:
                    nd = next((j for j in range(min(len(a[1]), len(b[1]))) if a[1][j] != b[1][j]), min(len(a[1]), len(b[1])))
                    fails["C08 with concurrent readers the writer-side observations leave the sequential model (handlers not pure?): %s, observation %d: impl %r model %r   [ops kept in %s]" % (
                        a[0], nd, (a[1][nd] if nd < len(a[1]) else "<none>")[:200], (b[1][nd] if nd < len(b[1]) else "<none>")[:200], keep_case(d, a[0]))] = 1
                    break
            tagsc["race:model-compared-shards"] += 1
        elif model_ok is False:
            fails["C08 race soak: model driver drv_muxer failed on the race slice's ops"] = 1

    for (pair, inrepo), n in reports.items():
        tag = classify(pair)
        if not inrepo:
            txt = "C08 data race inside the harness itself (bug in slice_race.go, not a finding): " + pair
        else:
            txt = tag + "C08 data race: " + pair
        tagsc["race:report:" + (tag.rstrip(": ") or "unclassified")] += n
        fails[txt + "   [%d report(s)]" % n] = n

    tagsc["race:storage-hook"] += 1 if hooks else 0
    print("EXTRA-STAT " + json.dumps({"cases": cases, "distinct": distinct, "tags": dict(tagsc), "sample": sample}))
    print("race_soak: %d cases in %d shards, build %.1fs run %.1fs, %d race report(s), tags=%s" % (cases, SHARDS, build_s, run_s, sum(reports.values()), tags))
    for txt in fails:
        pend = next((p for p in PENDING if re.search(p["match"], txt)), None)
        if pend:
            print("EXTRA-KNOWN %s: %s" % (pend["id"], txt[:600]))
        else:
            print("EXTRA-FAIL " + txt[:900])
finally:
    if os.environ.get("RACE_SOAK_KEEP"):      # keep the raw race-detector logs and op files for inspection
        shutil.copytree(work, os.environ["RACE_SOAK_KEEP"], dirs_exist_ok=True)
    shutil.rmtree(work, ignore_errors=True)
    for f in (exe, modfile, modfile[:-4] + ".sum"):
        try:
            os.remove(f)
        except OSError:
            pass
sys.exit(0)
